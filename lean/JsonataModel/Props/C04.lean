/-
  Props/C04.lean — property C04: the parse is fixed by JSONata precedence, associativity and
  parentheses.

  Proved here: the binding-power table the parser runs on is the table of the statement
  (regenerated from jparse.go on every run), the Pratt loop continues exactly while the next
  token binds tighter than the current right binding power, and each infix parser passes the
  binding power that encodes its associativity (own power: left; own power − 1: right; 0 for
  bracketed operands and for both branches of ? :).
  And the structure itself, for every tree (`parse_reads_back`): whenever the tokens of the input spell an
  expression tree built from operands, parentheses, unary minus, postfix predicates, the seventeen binary
  operators, `? :` and `:=` in which every operand binds as the table demands (left operand at least as tight,
  right operand strictly tighter, else-branch and assigned value extending to the right), the parser returns
  exactly that tree — any depth, any width; two such trees spelled by the same tokens are the same parse.
  Not proved (partial, DESIGN.md §6 C04): the same for the list-shaped constructs (calls, array and object
  constructors, grouping, order-by, lambdas) and the step from bytes to tokens for arbitrary texts (whitespace,
  quotes, `/`); both are covered by the correspondence, which prints operator trees with an independently
  written printer and compares trees (all ordered pairs/triples).
-/
import JsonataModel.Model.Parser
import JsonataModel.Lemmas.LexerProgress
import JsonataModel.Generated.Facts

namespace Jsonata.Props.C04
open Jsonata Jsonata.Lex Jsonata.Parse
open Jsonata.LexerProgress (R advance_R R_le)

/-! ### the table of the statement -/

/-- "postfix ( ) and [ ] and then . bind tightest, then { } grouping, then * / %, then + - &,
    then the comparison operators together with in, the order-by ^( ) and the chain ~>, then
    and, then or, then ? :, with := loosest" -/
def specRows : List (List Tok) :=
  [[.parenOpen, .bracketOpen], [.dot], [.braceOpen], [.mult, .div, .mod], [.plus, .minus, .concat],
   [.equal, .notEqual, .less, .lessEqual, .greater, .greaterEqual, .in_, .sort, .apply],
   [.and_], [.or_], [.condition], [.assign]]

theorem model_rows_eq_spec : bpsRows = specRows := rfl

/-- the rows in jparse.go are the rows of the statement -/
theorem fact_bps_rows : Generated.bpsRows = specRows.map (·.map Tok.goName) := by decide

theorem fact_bp_step : Generated.bpStep = bpStep := by decide

/-- the token-type enumeration of lexer.go is the model's -/
theorem fact_token_types : Generated.tokenTypes = allToks.map Tok.goName := by decide

/-- binding power of every token: (10 − row) × 10 for the tokens of the table, 0 otherwise -/
theorem bp_table :
    allToks.map bp =
      [0, 0, 0, 0, 0, 0, 0, 0, 0, 0,            -- eof error string number boolean null name nameEsc variable regex
       100, 0, 80, 0, 100, 0,                    -- [ ] { } ( )
       90, 0, 0, 0, 20,                          -- . , : ; ?
       60, 60, 70, 70, 70, 0,                    -- + - * / % |
       50, 50, 50, 50, 50, 50, 50, 50, 60,       -- = != < <= > >= ~> ^ &
       0, 10, 0,                                 -- .. := **
       40, 30, 50] := by decide               -- and or in

/-- rows are strictly ordered: an operator of a higher row binds tighter than one of a lower row -/
theorem rows_strictly_ordered :
    bp .parenOpen > bp .dot ∧ bp .dot > bp .braceOpen ∧ bp .braceOpen > bp .mult ∧ bp .mult > bp .plus ∧
    bp .plus > bp .equal ∧ bp .equal > bp .and_ ∧ bp .and_ > bp .or_ ∧ bp .or_ > bp .condition ∧
    bp .condition > bp .assign ∧ bp .assign > 0 := by decide

/-- operators of one row have equal binding power -/
theorem rows_equal_power :
    bp .parenOpen = bp .bracketOpen ∧ bp .mult = bp .div ∧ bp .div = bp .mod ∧
    bp .plus = bp .minus ∧ bp .minus = bp .concat ∧
    bp .equal = bp .notEqual ∧ bp .equal = bp .less ∧ bp .equal = bp .lessEqual ∧ bp .equal = bp .greater ∧
    bp .equal = bp .greaterEqual ∧ bp .equal = bp .in_ ∧ bp .equal = bp .sort ∧ bp .equal = bp .apply := by decide

/-! ### the Pratt loop -/

/-- the loop stops as soon as the next token does not bind tighter than `rbp` … -/
theorem ledLoop_stops (inp : Input) (pe : Nat → PState → Except PErr (PNode × PState)) (n rbp : Nat)
    (lhs : PNode) (p : PState) (h : ¬ rbp < bp p.tok.type) :
    ledLoop inp pe (n + 1) rbp lhs p = .ok (lhs, p) := by
  simp [ledLoop, h]

/-- … and otherwise consumes the operator, lets its led build the new left operand, and goes on -/
theorem ledLoop_continues (inp : Input) (pe : Nat → PState → Except PErr (PNode × PState)) (n rbp : Nat)
    (lhs : PNode) (p p1 p2 : PState) (lhs' : PNode) (h : rbp < bp p.tok.type)
    (ha : advance inp true p = .ok p1) (hl : led inp pe p.tok lhs p1 = .ok (lhs', p2)) :
    ledLoop inp pe (n + 1) rbp lhs p = ledLoop inp pe n rbp lhs' p2 := by
  simp [ledLoop, h, ha, hl, bind, Except.bind]

/-- the source's loop condition is `rbp < bp(next token)`: the expression parser (the method the exported
    `Parse` calls with 0) loops while its parameter is smaller than the value a method returns for the type of the
    current token — normalised by the extractor, so the names of the parameter and of that method do not matter -/
theorem fact_pratt_loop_cond : Generated.prattLoopCond = "rbp < bp(token)" := by decide

/-! ### associativity is encoded by the right binding power each led passes on -/

/-- binary arithmetic, comparison, boolean, `&`, `~>` and `.` parse their right operand at
    their own binding power: equal precedence groups to the left -/
theorem binary_left_assoc (inp : Input) (pe : Nat → PState → Except PErr (PNode × PState))
    (t : Token) (lhs : PNode) (p : PState) (ht : t.type = .plus) :
    led inp pe t lhs p = (do let (rhs, p1) ← pe (bp .plus) p; .ok (.numop .add lhs rhs, p1)) := by
  simp [led, ht, numOpOfTok]

theorem dot_left_assoc (inp : Input) (pe : Nat → PState → Except PErr (PNode × PState))
    (t : Token) (lhs : PNode) (p : PState) (ht : t.type = .dot) :
    led inp pe t lhs p = (do let (rhs, p1) ← pe (bp .dot) p; .ok (.dot lhs rhs, p1)) := by
  simp [led, ht]

/-- `:=` parses its value one below its own power: it groups to the right -/
theorem assign_right_assoc (inp : Input) (pe : Nat → PState → Except PErr (PNode × PState))
    (t : Token) (name : String) (p : PState) (ht : t.type = .assign) :
    led inp pe t (.var name) p = (do let (v, p1) ← pe (bp .assign - 1) p; .ok (.assign name v, p1)) := by
  simp [led, ht]

/-- the right binding power(s) the infix parser (led) / prefix parser (nud) of a token type passes to
    parseExpression: looked up through the dispatch tables, so the names of the parser functions do not matter -/
def ledRbp (tok : String) : Option (List String) :=
  (Generated.leds.lookup tok).bind fun fn => Generated.parseExprArgs.lookup fn
def nudRbp (tok : String) : Option (List String) :=
  (Generated.nuds.lookup tok).bind fun fn => Generated.parseExprArgs.lookup fn

/-- what the parser of every operator token passes to parseExpression as right binding power, regenerated from
    the source in a normalised form (`bp` = the binding power of the function's own token; a local that names
    the value is resolved and unexported helper methods are followed, so the fact does not depend on how the
    call is written, and the parser functions are reached through the dispatch tables, so it does not depend
    on what they are called): own power for the left-associative operators, the power of `{` for the operand of a
    unary minus (above every binary operator, below the postfix brackets and the dot; F42), own power − 1 for
    `:=`, 0 for both branches of `? :` and for bracketed operands -/
theorem fact_led_right_binding_powers :
    (["typeMult", "typeDiv", "typeMod", "typePlus", "typeMinus", "typeConcat", "typeEqual", "typeNotEqual", "typeLess",
      "typeLessEqual", "typeGreater", "typeGreaterEqual", "typeIn", "typeApply", "typeAnd", "typeOr", "typeDot"].all
        fun t => ledRbp t == some ["bp"]) = true ∧
    ledRbp "typeAssign" = some ["bp-1"] ∧
    ledRbp "typeCondition" = some ["0", "0"] ∧
    ledRbp "typeBracketOpen" = some ["0"] ∧ ledRbp "typeParenOpen" = some ["0"] ∧ ledRbp "typeSort" = some ["0"] ∧
    nudRbp "typeMinus" = some ["bp:BraceOpen"] ∧ nudRbp "typeParenOpen" = some ["0"] ∧
    Generated.parseExprArgs.lookup "Parse" = some ["0"] := by decide

/-- the token types that have a nud and a led in jparse.go (sorted: the order of a map literal
    carries no meaning) -/
theorem fact_dispatch_tables :
    Generated.leds.map (·.1) =
      ["typeAnd", "typeApply", "typeAssign", "typeBraceOpen", "typeBracketOpen", "typeConcat", "typeCondition",
       "typeDiv", "typeDot", "typeEqual", "typeGreater", "typeGreaterEqual", "typeIn", "typeLess", "typeLessEqual",
       "typeMinus", "typeMod", "typeMult", "typeNotEqual", "typeOr", "typeParenOpen", "typePlus", "typeSort"] ∧
    Generated.nuds.map (·.1) =
      ["typeAnd", "typeBoolean", "typeBraceOpen", "typeBracketOpen", "typeDescendent", "typeIn", "typeMinus",
       "typeMult", "typeName", "typeNameEsc", "typeNull", "typeNumber", "typeOr", "typeParenOpen", "typePipe",
       "typeRegex", "typeString", "typeVariable"] := by decide

/-- exactly the tokens with a led have a non-zero binding power (validateBindingPowers) -/
theorem led_iff_bp :
    (allToks.filter fun t => bp t != 0).map Tok.goName =
      ["typeBracketOpen", "typeBraceOpen", "typeParenOpen", "typeDot", "typeCondition", "typePlus", "typeMinus",
       "typeMult", "typeDiv", "typeMod", "typeEqual", "typeNotEqual", "typeLess", "typeLessEqual", "typeGreater",
       "typeGreaterEqual", "typeApply", "typeSort", "typeConcat", "typeAssign", "typeAnd", "typeOr", "typeIn"] := by
  decide

/-! ### keywords in prefix position are names; quotes do not matter -/

theorem keywords_as_names (inp : Input) (pe : Nat → PState → Except PErr (PNode × PState))
    (t : Token) (p : PState) (h : t.type = .and_ ∨ t.type = .or_ ∨ t.type = .in_) :
    nud inp pe t p = .ok (.name (bytesToString inp t.lo t.hi), p) := by
  rcases h with h | h | h <;> simp [nud, h]

/-- the symbol and keyword tables of the model's lexer (the statement's operator set).  They are tied to
    lexer.go behaviourally: the harness sweeps every pair of punctuation characters, every ASCII character as
    a separator, words around the keywords and every letter as a regex flag through the real lexer and this
    one.  (Tables read from the source break whenever a table is rewritten — map literal ↔ switch ↔ helper —
    which says nothing about the property; see DESIGN.md 0.8.) -/
theorem symbol_tables :
    ((List.range 128).filter fun r => (symbol1 r).isSome) =
      [37, 38, 40, 41, 42, 43, 44, 45, 46, 47, 58, 59, 60, 61, 62, 63, 91, 93, 94, 123, 124, 125] ∧
    ((List.range 128).filterMap fun r => (symbol2 r).map fun p => (r, p.1, p.2.goName)) =
      [(33, 61, "typeNotEqual"), (42, 42, "typeDescendent"), (46, 46, "typeRange"), (58, 61, "typeAssign"),
       (60, 61, "typeLessEqual"), (62, 61, "typeGreaterEqual"), (126, 62, "typeApply")] ∧
    (["and", "or", "in", "true", "false", "null", "not", "And"].map fun w => (keyword w).map Tok.goName) =
      [some "typeAnd", some "typeOr", some "typeIn", some "typeBoolean", some "typeBoolean", some "typeNull", none, none] ∧
    ((List.range 128).filter isWhitespace) = [9, 10, 11, 13, 32] ∧ ((List.range 128).filter isRegexFlag) = [105, 109, 115] := by
  decide

/-! ### the structure of the parse, for every tree

The parser interleaves lexing and parsing (the regex flag depends on the parser's state), so the theorem is
stated over the token stream the lexer produces from the input: `Stream`/`Reads` say which tokens the real
`next` yields, `E` are expression trees, `toks` the tokens that spell a tree, `node` the parse tree it denotes,
`WF` the table's condition on operands.  `parse_into_loop` is the induction (it uses the measure `R` of
Lemmas/LexerProgress to show that the loop budgets suffice), `parse_reads_back` the statement. -/

/-- `Stream inp s ts`: started in lexer state `s`, the lexer yields the tokens `ts` one after the other,
    whichever way the parser sets the regex flag -/
inductive Stream (inp : Input) : LState → List Token → Prop
  | nil (s : LState) : Stream inp s []
  | cons (s s' : LState) (t : Token) (ts : List Token) :
      (∀ b, next inp b s = .ok (t, s')) → Stream inp s' ts → Stream inp s (t :: ts)

/-- the parser state is about to read `ts`: its look-ahead token is the first, the lexer yields the rest -/
def Reads (inp : Input) (p : PState) : List Token → Prop
  | [] => False
  | t :: ts => p.tok = t ∧ Stream inp p.lex ts

theorem reads_advance (inp : Input) (b : Bool) (p : PState) (t t' : Token) (ts : List Token)
    (h : Reads inp p (t :: t' :: ts)) : ∃ q, advance inp b p = .ok q ∧ Reads inp q (t' :: ts) := by
  obtain ⟨_, hs⟩ := h
  cases hs with
  | cons s s' t1 ts1 hn hrest =>
    refine ⟨{ lex := s', tok := t' }, ?_, rfl, hrest⟩
    simp [advance, hn b]

/-- expression trees over atoms, parentheses and the binary operators -/
inductive E
  /-- a token that is an operand by itself, and the node it denotes -/
  | atom (t : Token) (n : PNode)
  | paren (o c : Token) (e : E)
  /-- `- e` -/
  | neg (m : Token) (e : E)
  /-- `l [ e ]` -/
  | pred (o c : Token) (l e : E)
  | bin (o : Token) (l r : E)
  | cond (q col : Token) (c t e : E)
  | assign (v o : Token) (val : E)

def isAtom : Tok → Bool
  | .variable | .name | .nameEsc | .null | .boolean => true
  | _ => false

def atomNode (inp : Input) (t : Token) : PNode :=
  match t.type with
  | .variable => .var (bytesToString inp t.lo t.hi)
  | .null => .null
  | .boolean => .bool (bytesToString inp t.lo t.hi == "true")
  | _ => .name (bytesToString inp t.lo t.hi)

/-- the node a binary operator token builds -/
def binNode : Tok → Option (PNode → PNode → PNode)
  | .dot => some .dot
  | .apply => some .apply
  | .concat => some .concat
  | .and_ => some (.boolop .and_)
  | .or_ => some (.boolop .or_)
  | .plus => some (.numop .add) | .minus => some (.numop .sub) | .mult => some (.numop .mul)
  | .div => some (.numop .div) | .mod => some (.numop .mod)
  | .equal => some (.cmpop .eq) | .notEqual => some (.cmpop .ne) | .less => some (.cmpop .lt)
  | .lessEqual => some (.cmpop .le) | .greater => some (.cmpop .gt) | .greaterEqual => some (.cmpop .ge)
  | .in_ => some (.cmpop .in_)
  | _ => none

def node (inp : Input) : E → PNode
  | .atom _ n => n
  | .paren _ _ e => .block [node inp e]
  | .neg _ e => .neg (node inp e)
  | .pred _ _ l e => .predRaw (node inp l) (node inp e)
  | .bin o l r =>
    match binNode o.type with
    | some mk => mk (node inp l) (node inp r)
    | none => .null
  | .cond _ _ c t e => .cond (node inp c) (node inp t) (some (node inp e))
  | .assign v _ val => .assign (bytesToString inp v.lo v.hi) (node inp val)

def toks : E → List Token
  | .atom t _ => [t]
  | .paren o c e => o :: (toks e ++ [c])
  | .neg m e => m :: toks e
  | .pred o c l e => toks l ++ o :: (toks e ++ [c])
  | .bin o l r => toks l ++ o :: toks r
  | .cond q col c t e => toks c ++ q :: (toks t ++ col :: toks e)
  | .assign v o val => v :: o :: toks val

/-- how tightly the outermost construct binds: the operator's binding power; atoms and parentheses
    bind tighter than every operator -/
def top : E → Nat
  | .bin o _ _ => bp o.type
  | .cond .. => bp .condition
  | .assign .. => bp .assign
  | .pred .. => bp .bracketOpen
  | _ => 1000

/-- what may follow the construct without being drawn into it: a token that binds no tighter than this.
    The else-branch of `? :` and the value of `:=` extend as far as they can (they group to the right), so only
    a token without binding power (a closing bracket, a separator, the end) can follow them. -/
def stop : E → Nat
  | .bin o _ r => min (bp o.type) (stop r)
  | .neg _ e => min (bp .braceOpen) (stop e)
  | .cond .. => 0
  | .assign .. => 0
  | .pred .. => bp .bracketOpen
  | _ => 1000

/-- the tree is one the table allows without further parentheses: the left operand binds at least as
    tightly as the operator (equal precedence groups to the left), the right operand strictly tighter -/
def WF (inp : Input) : E → Prop
  | .atom t n => ∀ pe p, nud inp pe t p = .ok (n, p)
  | .paren o c e => o.type = .parenOpen ∧ c.type = .parenClose ∧ WF inp e
  | .neg m e => m.type = .minus ∧ WF inp e ∧ bp .braceOpen < top e
  | .pred o c l e => o.type = .bracketOpen ∧ c.type = .bracketClose ∧ WF inp l ∧ WF inp e ∧ bp .bracketOpen ≤ stop l
  | .bin o l r => (binNode o.type).isSome = true ∧ WF inp l ∧ WF inp r ∧ bp o.type ≤ stop l ∧ bp o.type < top r
  | .cond q col c t e =>
    q.type = .condition ∧ col.type = .colon ∧ WF inp c ∧ WF inp t ∧ WF inp e ∧ bp .condition ≤ stop c
  | .assign v o val => v.type = .variable ∧ o.type = .assign ∧ WF inp val

theorem led_bin (inp : Input) (pe : Nat → PState → Except PErr (PNode × PState)) (t : Token) (lhs : PNode)
    (p : PState) (mk : PNode → PNode → PNode) (h : binNode t.type = some mk) :
    led inp pe t lhs p = (do let (rhs, p1) ← pe (bp t.type) p; .ok (mk lhs rhs, p1)) := by
  cases ht : t.type <;> simp [ht, binNode] at h <;> subst h <;> simp [led, ht, numOpOfTok, cmpOpOfTok]

theorem bin_bp_pos (t : Tok) (h : (binNode t).isSome = true) : 0 < bp t ∧ bp t < 1000 := by
  cases t <;> simp [binNode] at h <;> decide

theorem top_pos (inp : Input) (e : E) (h : WF inp e) : 0 < top e := by
  cases e with
  | atom t n => simp [top]
  | paren o c e => simp [top]
  | neg m e => simp [top]
  | pred o c l e => simp only [top]; decide
  | bin o l r => exact (bin_bp_pos _ h.1).1
  | cond q col c t e => simp only [top]; decide
  | assign v o val => simp only [top]; decide

theorem stop_le_top (e : E) : stop e ≤ top e := by
  have : bp Tok.braceOpen = 80 := by decide
  cases e <;> simp only [stop, top] <;> omega

theorem assign_lt_top (inp : Input) (e : E) (h : WF inp e) : bp .assign - 1 < top e := by
  have h9 : bp Tok.assign - 1 = 9 := by decide
  cases e with
  | atom t n => simp only [top]; omega
  | paren o c e => simp only [top]; omega
  | neg m e => simp only [top]; omega
  | pred o c l e => simp only [top]; decide
  | bin o l r =>
    have : 9 < bp o.type := by
      have := h.1
      revert this
      cases o.type <;> simp [binNode] <;> decide
    simp only [top]; omega
  | cond q col c t e => simp only [top]; decide
  | assign v o val => simp only [top]; decide

/-- the leaf tokens of the grammar denote themselves -/
theorem nud_atom (inp : Input) (pe : Nat → PState → Except PErr (PNode × PState)) (t : Token) (p : PState)
    (h : isAtom t.type = true) : nud inp pe t p = .ok (atomNode inp t, p) := by
  cases ht : t.type <;> simp [ht, isAtom] at h <;> simp [nud, atomNode, ht]

theorem wf_leaf (inp : Input) (t : Token) (h : isAtom t.type = true) : WF inp (.atom t (atomNode inp t)) :=
  fun pe p => nud_atom inp pe t p h

/-- a token that can start an operand: not the end of input and not a closing bracket -/
def Starter (t : Tok) : Prop := t ≠ .eof ∧ t ≠ .parenClose ∧ t ≠ .bracketClose

theorem nud_ok_starter (inp : Input) (pe : Nat → PState → Except PErr (PNode × PState)) (t : Token) (p : PState)
    (r : PNode × PState) (h : nud inp pe t p = .ok r) : Starter t.type := by
  refine ⟨?_, ?_, ?_⟩ <;> intro heq <;> simp [nud, heq] at h

/-- a tree starts with a token that can start an operand -/
theorem head_toks (inp : Input) (e : E) (h : WF inp e) : ∃ t tl, toks e = t :: tl ∧ Starter t.type := by
  induction e with
  | atom t n => exact ⟨t, [], rfl, nud_ok_starter inp (fun _ _ => .error default) t default _ (h _ _)⟩
  | paren o c e _ => exact ⟨o, toks e ++ [c], rfl, by rw [h.1]; simp [Starter]⟩
  | neg m e _ => exact ⟨m, toks e, rfl, by rw [h.1]; simp [Starter]⟩
  | pred o c l e ihl _ =>
    obtain ⟨t, tl, ht, hk⟩ := ihl h.2.2.1
    exact ⟨t, tl ++ o :: (toks e ++ [c]), by simp [toks, ht], hk⟩
  | bin o l r ihl _ =>
    obtain ⟨t, tl, ht, hk⟩ := ihl h.2.1
    exact ⟨t, tl ++ o :: toks r, by simp [toks, ht], hk⟩
  | cond q col c t e ihc _ _ =>
    obtain ⟨t0, tl, ht, hk⟩ := ihc h.2.2.1
    exact ⟨t0, tl ++ q :: (toks t ++ col :: toks e), by simp [toks, ht], hk⟩
  | assign v o val _ => exact ⟨v, o :: toks val, rfl, by rw [h.1]; simp [Starter]⟩

/-- the parser is in its operator loop with `lhs` built, about to read `ts` -/
def InLoop (inp : Input) (fuel rbp : Nat) (lhs : PNode) (ts : List Token) (bound : Nat)
    (r : Except PErr (PNode × PState)) : Prop :=
  ∃ n p', r = ledLoop inp (parseExpr inp fuel) n rbp lhs p' ∧ Reads inp p' ts ∧ R inp p' < n ∧ R inp p' < bound

/-- the loop stops at a token that does not bind tighter than `rbp` -/
theorem inLoop_stops (inp : Input) (fuel rbp : Nat) (lhs : PNode) (t' : Token) (rest : List Token) (bound : Nat)
    (r : Except PErr (PNode × PState)) (h : InLoop inp fuel rbp lhs (t' :: rest) bound r) (hbp : bp t'.type ≤ rbp) :
    ∃ p', r = .ok (lhs, p') ∧ Reads inp p' (t' :: rest) ∧ R inp p' < bound := by
  obtain ⟨n, p', hr, hreads, hn, hb⟩ := h
  refine ⟨p', ?_, hreads, hb⟩
  cases n with
  | zero => omega
  | succ n =>
    rw [hr]
    unfold ledLoop
    have : ¬ (rbp < bp p'.tok.type) := by rw [hreads.1]; omega
    simp [this]

theorem parseExpr_step (inp : Input) (fuel rbp : Nat) (p p1 : PState) (hne : p.tok.type ≠ .eof)
    (ha : advance inp (opensOperand p.tok.type) p = .ok p1) :
    parseExpr inp (fuel + 1) rbp p =
      (match nud inp (parseExpr inp fuel) p.tok p1 with
       | .ok (lhs, p2) => ledLoop inp (parseExpr inp fuel) (inp.size + 2) rbp lhs p2
       | .error e => .error e) := by
  have heof : (p.tok.type == Tok.eof) = false := by simpa using hne
  unfold parseExpr
  simp only [heof, Bool.false_eq_true, if_false, bind, Except.bind, ha]
  cases nud inp (parseExpr inp fuel) p.tok p1 with
  | error e => rfl
  | ok r => rfl

theorem ledLoop_step (inp : Input) (pe : Nat → PState → Except PErr (PNode × PState)) (n rbp : Nat) (lhs : PNode)
    (p p1 : PState) (h : rbp < bp p.tok.type) (ha : advance inp true p = .ok p1) :
    ledLoop inp pe (n + 1) rbp lhs p =
      (match led inp pe p.tok lhs p1 with
       | .ok (lhs', p2) => ledLoop inp pe n rbp lhs' p2
       | .error e => .error e) := by
  conv => lhs; unfold ledLoop
  simp only [h, if_true, bind, Except.bind, ha]
  cases led inp pe p.tok lhs p1 with
  | error e => rfl
  | ok r => rfl

theorem bin_not_eof (t : Tok) (h : (binNode t).isSome = true) : t ≠ .eof := by
  cases t <;> simp [binNode] at h <;> simp

/-- **the prefix of the token stream that spells a well-formed tree is read as that tree**, whatever follows:
    after it the parser is in its operator loop with the tree as left operand -/
theorem parse_into_loop (inp : Input) (e : E) : WF inp e → ∀ (fuel rbp : Nat) (p : PState) (t' : Token) (rest : List Token),
    rbp < top e → Reads inp p (toks e ++ t' :: rest) → bp t'.type ≤ stop e → R inp p < fuel + 1 →
    InLoop inp fuel rbp (node inp e) (t' :: rest) (R inp p) (parseExpr inp (fuel + 1) rbp p) := by
  induction e with
  | atom t n =>
    intro hwf fuel rbp p t' rest _ hreads _ _
    have hpt : p.tok = t := hreads.1
    have hne : p.tok.type ≠ .eof := by
      rw [hpt]; exact (nud_ok_starter inp (fun _ _ => .error default) t default _ (hwf _ _)).1
    obtain ⟨p1, ha, hr1⟩ := reads_advance inp (opensOperand p.tok.type) p t t' rest hreads
    rw [parseExpr_step inp fuel rbp p p1 hne ha, hpt, hwf _ p1]
    exact ⟨inp.size + 2, p1, rfl, hr1, R_le inp p1, by have := (advance_R inp (opensOperand p.tok.type) p p1 ha).2 hne; omega⟩
  | paren o c e ih =>
    intro hwf fuel rbp p t' rest _ hreads _ hfuel
    obtain ⟨ho, hc, hwe⟩ := hwf
    obtain ⟨h0, tl, htoks, hstart⟩ := head_toks inp e hwe
    have hpt : p.tok = o := hreads.1
    have hne : p.tok.type ≠ .eof := by rw [hpt, ho]; simp
    have hreads' : Reads inp p (o :: h0 :: (tl ++ c :: t' :: rest)) := by
      simpa [toks, htoks] using hreads
    obtain ⟨p1, ha, hr1⟩ := reads_advance inp (opensOperand p.tok.type) p o h0 _ hreads'
    have hd1 := (advance_R inp (opensOperand p.tok.type) p p1 ha).2 hne
    have hr1' : Reads inp p1 (toks e ++ c :: (t' :: rest)) := by simpa [htoks] using hr1
    -- the inner expression, read completely: it stops at the closing parenthesis
    have hbc : bp Tok.parenClose = 0 := by decide
    cases fuel with
    | zero => omega
    | succ f =>
      have hin := ih hwe f 0 p1 c (t' :: rest) (top_pos inp e hwe) hr1' (by rw [hc, hbc]; omega) (by omega)
      obtain ⟨p2, he2, hr2, hb2⟩ := inLoop_stops inp f 0 _ c (t' :: rest) _ _ hin (by rw [hc, hbc]; omega)
      obtain ⟨p3, ha3, hr3⟩ := reads_advance inp false p2 c t' rest hr2
      have hd3 := (advance_R inp false p2 p3 ha3).1
      have hp1c : (p1.tok.type == Tok.parenClose) = false := by
        have : p1.tok = h0 := hr1.1
        rw [this]; simpa using hstart.2.1
      have hp2 : p2.tok = c := hr2.1
      rw [parseExpr_step inp (f + 1) rbp p p1 hne ha, hpt]
      have hnud : nud inp (parseExpr inp (f + 1)) o p1 = .ok (.block [node inp e], p3) := by
        unfold nud
        simp only [ho]
        unfold parseBlockExprs
        simp only [hp1c, Bool.false_eq_true, if_false, bind, Except.bind, he2, consume]
        simp [hp2, hc, ha3]
      rw [hnud]
      exact ⟨inp.size + 2, p3, rfl, hr3, R_le inp p3, by omega⟩
  | neg m e ih =>
    intro hwf fuel rbp p t' rest _ hreads hstop hfuel
    obtain ⟨hm, hwe, htop⟩ := hwf
    simp only [stop] at hstop
    obtain ⟨h0, tl, htoks, _⟩ := head_toks inp e hwe
    have hpt : p.tok = m := hreads.1
    have hne : p.tok.type ≠ .eof := by rw [hpt, hm]; simp
    have hreads' : Reads inp p (m :: h0 :: (tl ++ t' :: rest)) := by simpa [toks, htoks] using hreads
    obtain ⟨p1, ha, hr1⟩ := reads_advance inp (opensOperand p.tok.type) p m h0 _ hreads'
    have hd1 := (advance_R inp (opensOperand p.tok.type) p p1 ha).2 hne
    have hr1' : Reads inp p1 (toks e ++ t' :: rest) := by simpa [htoks] using hr1
    cases fuel with
    | zero => omega
    | succ f =>
      -- the operand of unary minus is read above the binary operators (at the binding power of `{`)
      have hin := ih hwe f (bp Tok.braceOpen) p1 t' rest htop hr1' (by omega) (by omega)
      obtain ⟨p2, he2, hr2, hb2⟩ := inLoop_stops inp f _ _ t' rest _ _ hin (by omega)
      rw [parseExpr_step inp (f + 1) rbp p p1 hne ha, hpt]
      have hnud : nud inp (parseExpr inp (f + 1)) m p1 = .ok (.neg (node inp e), p2) := by
        unfold nud
        simp only [hm, bind, Except.bind, he2]
      rw [hnud]
      exact ⟨inp.size + 2, p2, rfl, hr2, R_le inp p2, by omega⟩
  | pred o c l e ihl ihe =>
    intro hwf fuel rbp p t' rest hrbp hreads _ hfuel
    obtain ⟨ho, hc, hwl, hwe, hlstop⟩ := hwf
    have hbo : bp Tok.bracketOpen = 100 := by decide
    have hbc : bp Tok.bracketClose = 0 := by decide
    simp only [top] at hrbp
    have hsl := stop_le_top l
    have hreads' : Reads inp p (toks l ++ o :: (toks e ++ c :: t' :: rest)) := by
      simpa [toks, List.append_assoc] using hreads
    obtain ⟨n, p', heq, hrl, hn, hbl⟩ := ihl hwl fuel rbp p o _ (by omega) hreads' (by rw [ho]; exact hlstop) hfuel
    obtain ⟨h0, tl, htoks, hstart⟩ := head_toks inp e hwe
    have hpt : p'.tok = o := hrl.1
    have hne : p'.tok.type ≠ .eof := by rw [hpt, ho]; simp
    have hrl' : Reads inp p' (o :: h0 :: (tl ++ c :: t' :: rest)) := by simpa [htoks] using hrl
    obtain ⟨p1, ha, hr1⟩ := reads_advance inp true p' o h0 _ hrl'
    have hd1 := (advance_R inp true p' p1 ha).2 hne
    have hr1' : Reads inp p1 (toks e ++ c :: (t' :: rest)) := by simpa [htoks] using hr1
    cases fuel with
    | zero => omega
    | succ f =>
      have hin := ihe hwe f 0 p1 c (t' :: rest) (top_pos inp e hwe) hr1' (by rw [hc, hbc]; omega) (by omega)
      obtain ⟨p2, he2, hr2, hb2⟩ := inLoop_stops inp f 0 _ c (t' :: rest) _ _ hin (by rw [hc, hbc]; omega)
      obtain ⟨p3, ha3, hr3⟩ := reads_advance inp false p2 c t' rest hr2
      have hd3 := (advance_R inp false p2 p3 ha3).1
      have hp1c : (p1.tok.type == Tok.bracketClose) = false := by
        have : p1.tok = h0 := hr1.1
        rw [this]; simpa using hstart.2.2
      have hp2 : p2.tok = c := hr2.1
      cases n with
      | zero => omega
      | succ n0 =>
        refine ⟨n0, p3, ?_, hr3, by omega, by omega⟩
        rw [heq, ledLoop_step inp _ n0 rbp _ p' p1 (by rw [hpt, ho, hbo]; omega) ha, hpt]
        have hled : led inp (parseExpr inp (f + 1)) o (node inp l) p1 = .ok (.predRaw (node inp l) (node inp e), p3) := by
          unfold led
          simp only [ho, hp1c, Bool.false_eq_true, if_false, bind, Except.bind, he2, consume]
          simp [hp2, hc, ha3]
        rw [hled]
        simp [node]
  | bin o l r ihl ihr =>
    intro hwf fuel rbp p t' rest hrbp hreads hstop hfuel
    obtain ⟨hbin, hwl, hwr, hleft, hright⟩ := hwf
    obtain ⟨mk, hmk⟩ := Option.isSome_iff_exists.mp hbin
    simp only [top] at hrbp
    simp only [stop] at hstop
    have hsl := stop_le_top l
    have hreads' : Reads inp p (toks l ++ o :: (toks r ++ t' :: rest)) := by
      simpa [toks, List.append_assoc] using hreads
    obtain ⟨n, p', heq, hrl, hn, hbl⟩ := ihl hwl fuel rbp p o (toks r ++ t' :: rest) (by omega) hreads' hleft hfuel
    obtain ⟨h0, tl, htoks, _⟩ := head_toks inp r hwr
    have hpt : p'.tok = o := hrl.1
    have hne : p'.tok.type ≠ .eof := by rw [hpt]; exact bin_not_eof _ hbin
    have hrl' : Reads inp p' (o :: h0 :: (tl ++ t' :: rest)) := by simpa [htoks] using hrl
    obtain ⟨p1, ha, hr1⟩ := reads_advance inp true p' o h0 _ hrl'
    have hd1 := (advance_R inp true p' p1 ha).2 hne
    have hr1' : Reads inp p1 (toks r ++ t' :: rest) := by simpa [htoks] using hr1
    cases fuel with
    | zero => omega
    | succ f =>
      have hin := ihr hwr f (bp o.type) p1 t' rest hright hr1' (by omega) (by omega)
      obtain ⟨p2, he2, hr2, hb2⟩ := inLoop_stops inp f (bp o.type) _ t' rest _ _ hin (by omega)
      cases n with
      | zero => omega
      | succ n0 =>
        refine ⟨n0, p2, ?_, hr2, by omega, by omega⟩
        rw [heq, ledLoop_step inp _ n0 rbp _ p' p1 (by rw [hpt]; exact hrbp) ha, hpt,
          led_bin inp _ o _ p1 mk hmk]
        simp [bind, Except.bind, he2, node, hmk]
  | cond q col c t e ihc iht ihe =>
    intro hwf fuel rbp p t' rest hrbp hreads hstop hfuel
    obtain ⟨hq, hcol, hwc, hwt, hwe, hcstop⟩ := hwf
    have hbq : bp Tok.condition = 20 := by decide
    have hbcol : bp Tok.colon = 0 := by decide
    simp only [top] at hrbp
    simp only [stop] at hstop
    have hsc := stop_le_top c
    have hreads' : Reads inp p (toks c ++ q :: (toks t ++ col :: (toks e ++ t' :: rest))) := by
      simpa [toks, List.append_assoc] using hreads
    obtain ⟨n, p', heq, hrc, hn, hbc⟩ := ihc hwc fuel rbp p q _ (by omega) hreads' (by rw [hq]; exact hcstop) hfuel
    obtain ⟨h0, tl, htoks, _⟩ := head_toks inp t hwt
    have hpt : p'.tok = q := hrc.1
    have hne : p'.tok.type ≠ .eof := by rw [hpt, hq]; simp
    have hrc' : Reads inp p' (q :: h0 :: (tl ++ col :: (toks e ++ t' :: rest))) := by simpa [htoks] using hrc
    obtain ⟨p1, ha, hr1⟩ := reads_advance inp true p' q h0 _ hrc'
    have hd1 := (advance_R inp true p' p1 ha).2 hne
    have hr1' : Reads inp p1 (toks t ++ col :: (toks e ++ t' :: rest)) := by simpa [htoks] using hr1
    cases fuel with
    | zero => omega
    | succ f =>
      -- the then-branch, read completely up to the colon
      have hin := iht hwt f 0 p1 col _ (top_pos inp t hwt) hr1' (by rw [hcol, hbcol]; omega) (by omega)
      obtain ⟨p2, he2, hr2, hb2⟩ := inLoop_stops inp f 0 _ col _ _ _ hin (by rw [hcol, hbcol]; omega)
      obtain ⟨g0, gl, gtoks, _⟩ := head_toks inp e hwe
      have hr2' : Reads inp p2 (col :: g0 :: (gl ++ t' :: rest)) := by simpa [gtoks] using hr2
      obtain ⟨p3, ha3, hr3⟩ := reads_advance inp true p2 col g0 _ hr2'
      have hd3 := (advance_R inp true p2 p3 ha3).1
      have hr3' : Reads inp p3 (toks e ++ t' :: rest) := by simpa [gtoks] using hr3
      -- the else-branch, read at binding power 0: it takes everything up to a token without binding power
      have hin2 := ihe hwe f 0 p3 t' rest (top_pos inp e hwe) hr3' (by omega) (by omega)
      obtain ⟨p4, he4, hr4, hb4⟩ := inLoop_stops inp f 0 _ t' rest _ _ hin2 (by omega)
      have hp2 : p2.tok = col := hr2.1
      cases n with
      | zero => omega
      | succ n0 =>
        refine ⟨n0, p4, ?_, hr4, by omega, by omega⟩
        rw [heq, ledLoop_step inp _ n0 rbp _ p' p1 (by rw [hpt, hq, hbq]; omega) ha, hpt]
        have hled : led inp (parseExpr inp (f + 1)) q (node inp c) p1
            = .ok (.cond (node inp c) (node inp t) (some (node inp e)), p4) := by
          unfold led
          simp only [hq, bind, Except.bind, he2]
          simp [hp2, hcol, consume, ha3, he4]
        rw [hled]
        simp [node]
  | assign v o val ih =>
    intro hwf fuel rbp p t' rest hrbp hreads hstop hfuel
    obtain ⟨hv, ho, hwv⟩ := hwf
    have hba : bp Tok.assign = 10 := by decide
    simp only [top] at hrbp
    simp only [stop] at hstop
    obtain ⟨h0, tl, htoks, _⟩ := head_toks inp val hwv
    have hpt : p.tok = v := hreads.1
    have hne : p.tok.type ≠ .eof := by rw [hpt, hv]; simp
    have hreads' : Reads inp p (v :: o :: (h0 :: (tl ++ t' :: rest))) := by simpa [toks, htoks] using hreads
    obtain ⟨p1, ha, hr1⟩ := reads_advance inp (opensOperand p.tok.type) p v o _ hreads'
    have hd1 := (advance_R inp (opensOperand p.tok.type) p p1 ha).2 hne
    have hp1 : p1.tok = o := hr1.1
    have hne1 : p1.tok.type ≠ .eof := by rw [hp1, ho]; simp
    obtain ⟨p2, ha2, hr2⟩ := reads_advance inp true p1 o h0 _ hr1
    have hd2 := (advance_R inp true p1 p2 ha2).2 hne1
    have hr2' : Reads inp p2 (toks val ++ t' :: rest) := by simpa [htoks] using hr2
    have hle1 := R_le inp p1
    cases fuel with
    | zero => omega
    | succ f =>
      have hin := ih hwv f (bp Tok.assign - 1) p2 t' rest (assign_lt_top inp val hwv) hr2' (by omega) (by omega)
      obtain ⟨p3, he3, hr3, hb3⟩ := inLoop_stops inp f _ _ t' rest _ _ hin (by omega)
      refine ⟨inp.size + 1, p3, ?_, hr3, by omega, by omega⟩
      rw [parseExpr_step inp (f + 1) rbp p p1 hne ha, hpt]
      have hnud : nud inp (parseExpr inp (f + 1)) v p1 = .ok (.var (bytesToString inp v.lo v.hi), p1) := by
        simp [nud, hv]
      rw [hnud]
      simp only []
      rw [ledLoop_step inp _ (inp.size + 1) rbp _ p1 p2 (by rw [hp1, ho, hba]; omega) ha2, hp1]
      have hled : led inp (parseExpr inp (f + 1)) o (.var (bytesToString inp v.lo v.hi)) p2
          = .ok (.assign (bytesToString inp v.lo v.hi) (node inp val), p3) := by
        unfold led
        simp only [ho, bind, Except.bind, he3]
      rw [hled]
      simp [node]

/-- **Reading back.**  If the token stream of the input spells a well-formed tree `e` followed by the end of
    input, the expression parser returns exactly `e`'s node — for every tree, of any depth and width. -/
theorem parse_reads_back (inp : Input) (e : E) (hwf : WF inp e) (fuel : Nat) (p : PState) (eof : Token)
    (heof : eof.type = .eof) (hreads : Reads inp p (toks e ++ [eof])) (hfuel : R inp p < fuel + 1) :
    ∃ p', parseExpr inp (fuel + 1) 0 p = .ok (node inp e, p') ∧ p'.tok = eof := by
  have h0 : bp eof.type = 0 := by rw [heof]; decide
  have := parse_into_loop inp e hwf fuel 0 p eof [] (top_pos inp e hwf) hreads (by omega) hfuel
  obtain ⟨p', he, hr, _⟩ := inLoop_stops inp fuel 0 _ eof [] _ _ this (by omega)
  exact ⟨p', he, hr.1⟩

/-- with the budget `parse` itself uses -/
theorem parse_reads_back_budget (inp : Input) (e : E) (hwf : WF inp e) (p : PState) (eof : Token)
    (heof : eof.type = .eof) (hreads : Reads inp p (toks e ++ [eof])) :
    ∃ p', parseExpr inp (2 * inp.size + 8) 0 p = .ok (node inp e, p') ∧ p'.tok = eof := by
  have := R_le inp p
  exact parse_reads_back inp e hwf (2 * inp.size + 7) p eof heof hreads (by omega)

/-- **Unambiguity**: two well-formed trees that are spelled by the same tokens are the same parse. -/
theorem same_tokens_same_parse (inp : Input) (e1 e2 : E) (h1 : WF inp e1) (h2 : WF inp e2) (p : PState) (eof : Token)
    (heof : eof.type = .eof) (hreads : Reads inp p (toks e1 ++ [eof])) (hsame : toks e1 = toks e2) :
    node inp e1 = node inp e2 := by
  obtain ⟨p1, he1, _⟩ := parse_reads_back_budget inp e1 h1 p eof heof hreads
  obtain ⟨p2, he2, _⟩ := parse_reads_back_budget inp e2 h2 p eof heof (hsame ▸ hreads)
  rw [he1] at he2
  injection he2 with he2
  injection he2

/-! the statement's clauses as instances -/

/-- `a o1 b o2 c` where `o2` does not bind tighter than `o1` (a lower row, or the same row: equal precedence
    groups to the left) is `(a o1 b) o2 c` … -/
theorem groups_left (inp : Input) (a b c : E) (o1 o2 : Token) (ha : WF inp a) (hb : WF inp b) (hc : WF inp c)
    (h1 : (binNode o1.type).isSome = true) (h2 : (binNode o2.type).isSome = true)
    (hab : bp o1.type ≤ stop a ∧ bp o1.type < top b) (hc' : bp o2.type < top c) (h : bp o2.type ≤ bp o1.type)
    (hb' : bp o2.type ≤ stop b) :
    WF inp (.bin o2 (.bin o1 a b) c) ∧ toks (.bin o2 (.bin o1 a b) c) = toks a ++ o1 :: (toks b ++ o2 :: toks c) := by
  refine ⟨⟨h2, ⟨h1, ha, hb, hab.1, hab.2⟩, hc, by simp only [stop]; omega, hc'⟩, by simp [toks]⟩

/-- … and where `o2` binds tighter it is `a o1 (b o2 c)` -/
theorem groups_right (inp : Input) (a b c : E) (o1 o2 : Token) (ha : WF inp a) (hb : WF inp b) (hc : WF inp c)
    (h1 : (binNode o1.type).isSome = true) (h2 : (binNode o2.type).isSome = true)
    (ha' : bp o1.type ≤ stop a) (hbc : bp o2.type ≤ stop b ∧ bp o2.type < top c) (h : bp o1.type < bp o2.type) :
    WF inp (.bin o1 a (.bin o2 b c)) ∧ toks (.bin o1 a (.bin o2 b c)) = toks a ++ o1 :: (toks b ++ o2 :: toks c) := by
  refine ⟨⟨h1, ha, ⟨h2, hb, hc, hbc.1, hbc.2⟩, ha', h⟩, by simp [toks]⟩

/-- parentheses override both: a parenthesised tree is an operand of any operator on either side -/
theorem paren_is_operand (o c : Token) (e : E) (t : Tok) (h : (binNode t).isSome = true) :
    bp t < top (.paren o c e) := by
  simp only [top]; exact (bin_bp_pos t h).2

/-! ### non-vacuity: concrete inputs whose token streams are computed by the lexer itself -/

/-- `a + b * (c - d)` -/
def exInput : Input := #[97, 32, 43, 32, 98, 32, 42, 32, 40, 99, 32, 45, 32, 100, 41]
def tk (ty : Tok) (lo hi : Nat) : Token := { type := ty, lo := lo, hi := hi, position := lo }
def st (c : Nat) : LState := { start := c, current := c, width := 0 }
def leaf (inp : Input) (t : Token) : E := .atom t (atomNode inp t)

def exTree : E :=
  .bin (tk .plus 2 3) (leaf exInput (tk .name 0 1))
    (.bin (tk .mult 6 7) (leaf exInput (tk .name 4 5))
      (.paren (tk .parenOpen 8 9) (tk .parenClose 14 15)
        (.bin (tk .minus 11 12) (leaf exInput (tk .name 9 10)) (leaf exInput (tk .name 13 14)))))

theorem exWF : WF exInput exTree :=
  ⟨rfl, wf_leaf _ _ rfl,
    ⟨rfl, wf_leaf _ _ rfl, ⟨rfl, rfl, ⟨rfl, wf_leaf _ _ rfl, wf_leaf _ _ rfl, by decide, by decide⟩⟩, by decide, by decide⟩,
    by decide, by decide⟩

theorem exStream : Stream exInput (st 1) (toks exTree ++ [tk .eof 15 15]).tail := by
  simp only [exTree, leaf, toks, List.cons_append, List.nil_append, List.tail_cons]
  refine .cons _ (st 3) _ _ (by intro b; cases b <;> rfl) ?_
  refine .cons _ (st 5) _ _ (by intro b; cases b <;> rfl) ?_
  refine .cons _ (st 7) _ _ (by intro b; cases b <;> rfl) ?_
  refine .cons _ (st 9) _ _ (by intro b; cases b <;> rfl) ?_
  refine .cons _ (st 10) _ _ (by intro b; cases b <;> rfl) ?_
  refine .cons _ (st 12) _ _ (by intro b; cases b <;> rfl) ?_
  refine .cons _ (st 14) _ _ (by intro b; cases b <;> rfl) ?_
  refine .cons _ (st 15) _ _ (by intro b; cases b <;> rfl) ?_
  refine .cons _ (st 15) _ _ (by intro b; cases b <;> rfl) ?_
  exact .nil _

/-- the theorem applied to it: `a + b * (c - d)` parses with `*` under `+` and the parenthesised
    difference as the right operand of `*` -/
example : ∃ p', parseExpr exInput (2 * exInput.size + 8) 0 { lex := st 1, tok := tk .name 0 1 }
      = .ok (.numop .add (.name "a") (.numop .mul (.name "b") (.block [.numop .sub (.name "c") (.name "d")])), p') := by
  obtain ⟨p', h, _⟩ := parse_reads_back_budget exInput exTree exWF { lex := st 1, tok := tk .name 0 1 } (tk .eof 15 15) rfl
    ⟨rfl, exStream⟩
  refine ⟨p', ?_⟩
  rw [h]
  rfl

/-- `$v := a ? b : c ? d : e` -/
def exInput2 : Input := #[36, 118, 32, 58, 61, 32, 97, 32, 63, 32, 98, 32, 58, 32, 99, 32, 63, 32, 100, 32, 58, 32, 101]

def exTree2 : E :=
  .assign (tk .variable 1 2) (tk .assign 3 5)
    (.cond (tk .condition 8 9) (tk .colon 12 13) (leaf exInput2 (tk .name 6 7)) (leaf exInput2 (tk .name 10 11))
      (.cond (tk .condition 16 17) (tk .colon 20 21) (leaf exInput2 (tk .name 14 15)) (leaf exInput2 (tk .name 18 19))
        (leaf exInput2 (tk .name 22 23))))

theorem exWF2 : WF exInput2 exTree2 :=
  ⟨rfl, rfl, ⟨rfl, rfl, wf_leaf _ _ rfl, wf_leaf _ _ rfl,
    ⟨rfl, rfl, wf_leaf _ _ rfl, wf_leaf _ _ rfl, wf_leaf _ _ rfl, by decide⟩, by decide⟩⟩

theorem exStream2 : Stream exInput2 (st 2) (toks exTree2 ++ [tk .eof 23 23]).tail := by
  simp only [exTree2, leaf, toks, List.cons_append, List.nil_append, List.tail_cons]
  refine .cons _ (st 5) _ _ (by intro b; cases b <;> rfl) ?_
  refine .cons _ (st 7) _ _ (by intro b; cases b <;> rfl) ?_
  refine .cons _ (st 9) _ _ (by intro b; cases b <;> rfl) ?_
  refine .cons _ (st 11) _ _ (by intro b; cases b <;> rfl) ?_
  refine .cons _ (st 13) _ _ (by intro b; cases b <;> rfl) ?_
  refine .cons _ (st 15) _ _ (by intro b; cases b <;> rfl) ?_
  refine .cons _ (st 17) _ _ (by intro b; cases b <;> rfl) ?_
  refine .cons _ (st 19) _ _ (by intro b; cases b <;> rfl) ?_
  refine .cons _ (st 21) _ _ (by intro b; cases b <;> rfl) ?_
  refine .cons _ (st 23) _ _ (by intro b; cases b <;> rfl) ?_
  refine .cons _ (st 23) _ _ (by intro b; cases b <;> rfl) ?_
  exact .nil _

/-- `:=` takes the whole conditional as its value and the else-branch takes the second conditional:
    both group to the right -/
example : ∃ p', parseExpr exInput2 (2 * exInput2.size + 8) 0 { lex := st 2, tok := tk .variable 1 2 }
      = .ok (.assign "v" (.cond (.name "a") (.name "b") (some (.cond (.name "c") (.name "d") (some (.name "e"))))), p') := by
  obtain ⟨p', h, _⟩ := parse_reads_back_budget exInput2 exTree2 exWF2 { lex := st 2, tok := tk .variable 1 2 }
    (tk .eof 23 23) rfl ⟨rfl, exStream2⟩
  refine ⟨p', ?_⟩
  rw [h]
  rfl

/-- `-a[b] * c.d` -/
def exInput3 : Input := #[45, 97, 91, 98, 93, 32, 42, 32, 99, 46, 100]

def exTree3 : E :=
  .bin (tk .mult 6 7)
    (.neg (tk .minus 0 1)
      (.pred (tk .bracketOpen 2 3) (tk .bracketClose 4 5) (leaf exInput3 (tk .name 1 2)) (leaf exInput3 (tk .name 3 4))))
    (.bin (tk .dot 9 10) (leaf exInput3 (tk .name 8 9)) (leaf exInput3 (tk .name 10 11)))

theorem exWF3 : WF exInput3 exTree3 :=
  ⟨rfl, ⟨rfl, ⟨rfl, rfl, wf_leaf _ _ rfl, wf_leaf _ _ rfl, by decide⟩, by decide⟩,
    ⟨rfl, wf_leaf _ _ rfl, wf_leaf _ _ rfl, by decide, by decide⟩, by decide, by decide⟩

theorem exStream3 : Stream exInput3 (st 1) (toks exTree3 ++ [tk .eof 11 11]).tail := by
  simp only [exTree3, leaf, toks, List.cons_append, List.nil_append, List.tail_cons]
  refine .cons _ (st 2) _ _ (by intro b; cases b <;> rfl) ?_
  refine .cons _ (st 3) _ _ (by intro b; cases b <;> rfl) ?_
  refine .cons _ (st 4) _ _ (by intro b; cases b <;> rfl) ?_
  refine .cons _ (st 5) _ _ (by intro b; cases b <;> rfl) ?_
  refine .cons _ (st 7) _ _ (by intro b; cases b <;> rfl) ?_
  refine .cons _ (st 9) _ _ (by intro b; cases b <;> rfl) ?_
  refine .cons _ (st 10) _ _ (by intro b; cases b <;> rfl) ?_
  refine .cons _ (st 11) _ _ (by intro b; cases b <;> rfl) ?_
  refine .cons _ (st 11) _ _ (by intro b; cases b <;> rfl) ?_
  exact .nil _

/-- the postfix predicate binds tightest, then `.`; unary minus takes `a[b]` only (it binds tighter than `*`,
    F42), and the product groups the negated operand with `c.d` -/
example : ∃ p', parseExpr exInput3 (2 * exInput3.size + 8) 0 { lex := st 1, tok := tk .minus 0 1 }
      = .ok (.numop .mul (.neg (.predRaw (.name "a") (.name "b"))) (.dot (.name "c") (.name "d")), p') := by
  obtain ⟨p', h, _⟩ := parse_reads_back_budget exInput3 exTree3 exWF3 { lex := st 1, tok := tk .minus 0 1 }
    (tk .eof 11 11) rfl ⟨rfl, exStream3⟩
  refine ⟨p', ?_⟩
  rw [h]
  rfl


end Jsonata.Props.C04
