/-
  Props/C04.lean — property C04: the parse is fixed by JSONata precedence, associativity and
  parentheses.

  Proved here: the binding-power table the parser runs on is the table of the statement
  (regenerated from jparse.go on every run), the Pratt loop continues exactly while the next
  token binds tighter than the current right binding power, and each infix parser passes the
  binding power that encodes its associativity (own power: left; own power − 1: right; 0 for
  bracketed operands and for both branches of ? :).
  Not proved (partial, DESIGN.md §6 C04): the round trip `parse (print t) = t` for the
  minimal-parenthesis printer; it is covered by the correspondence, which prints operator
  trees with an independently written printer and compares trees (all ordered pairs/triples).
-/
import JsonataModel.Model.Parser
import JsonataModel.Generated.Facts

namespace Jsonata.Props.C04
open Jsonata Jsonata.Lex Jsonata.Parse

/-! ### the table of the statement -/

/-- "postfix ( ) and [ ] and then . bind tightest, then { } grouping, then * / %, then + - &,
    then the comparison operators together with in, the order-by ^( ) and the chain ~>, then
    and, then or, then ? :, with := loosest" -/
def specRows : List (List Tok) :=
  [[.parenOpen, .bracketOpen], [.dot], [.braceOpen], [.mult, .div, .mod], [.plus, .minus, .concat],
   [.equal, .notEqual, .less, .lessEqual, .greater, .greaterEqual, .in_, .sort, .apply],
   [.and_], [.or_], [.condition], [.assign]]

theorem model_rows_eq_spec : bpsRows = specRows := rfl

/-- the rows in jparse.go are the rows of the statement -/
theorem fact_bps_rows : Generated.bpsRows = specRows.map (·.map Tok.goName) := by decide

theorem fact_bp_step : Generated.bpStep = bpStep := by decide

/-- the token-type enumeration of lexer.go is the model's -/
theorem fact_token_types : Generated.tokenTypes = allToks.map Tok.goName := by decide

/-- binding power of every token: (10 − row) × 10 for the tokens of the table, 0 otherwise -/
theorem bp_table :
    allToks.map bp =
      [0, 0, 0, 0, 0, 0, 0, 0, 0, 0,            -- eof error string number boolean null name nameEsc variable regex
       100, 0, 80, 0, 100, 0,                    -- [ ] { } ( )
       90, 0, 0, 0, 20,                          -- . , : ; ?
       60, 60, 70, 70, 70, 0,                    -- + - * / % |
       50, 50, 50, 50, 50, 50, 50, 50, 60,       -- = != < <= > >= ~> ^ &
       0, 10, 0,                                 -- .. := **
       40, 30, 50] := by decide               -- and or in

/-- rows are strictly ordered: an operator of a higher row binds tighter than one of a lower row -/
theorem rows_strictly_ordered :
    bp .parenOpen > bp .dot ∧ bp .dot > bp .braceOpen ∧ bp .braceOpen > bp .mult ∧ bp .mult > bp .plus ∧
    bp .plus > bp .equal ∧ bp .equal > bp .and_ ∧ bp .and_ > bp .or_ ∧ bp .or_ > bp .condition ∧
    bp .condition > bp .assign ∧ bp .assign > 0 := by decide

/-- operators of one row have equal binding power -/
theorem rows_equal_power :
    bp .parenOpen = bp .bracketOpen ∧ bp .mult = bp .div ∧ bp .div = bp .mod ∧
    bp .plus = bp .minus ∧ bp .minus = bp .concat ∧
    bp .equal = bp .notEqual ∧ bp .equal = bp .less ∧ bp .equal = bp .lessEqual ∧ bp .equal = bp .greater ∧
    bp .equal = bp .greaterEqual ∧ bp .equal = bp .in_ ∧ bp .equal = bp .sort ∧ bp .equal = bp .apply := by decide

/-! ### the Pratt loop -/

/-- the loop stops as soon as the next token does not bind tighter than `rbp` … -/
theorem ledLoop_stops (inp : Input) (pe : Nat → PState → Except PErr (PNode × PState)) (n rbp : Nat)
    (lhs : PNode) (p : PState) (h : ¬ rbp < bp p.tok.type) :
    ledLoop inp pe (n + 1) rbp lhs p = .ok (lhs, p) := by
  simp [ledLoop, h]

/-- … and otherwise consumes the operator, lets its led build the new left operand, and goes on -/
theorem ledLoop_continues (inp : Input) (pe : Nat → PState → Except PErr (PNode × PState)) (n rbp : Nat)
    (lhs : PNode) (p p1 p2 : PState) (lhs' : PNode) (h : rbp < bp p.tok.type)
    (ha : advance inp true p = .ok p1) (hl : led inp pe p.tok lhs p1 = .ok (lhs', p2)) :
    ledLoop inp pe (n + 1) rbp lhs p = ledLoop inp pe n rbp lhs' p2 := by
  simp [ledLoop, h, ha, hl, bind, Except.bind]

/-- the source's loop condition is `rbp < bp(next token)` -/
theorem fact_pratt_loop_cond : Generated.prattLoopCond = "rbp < p.lookupBp(p.token.Type)" := by decide

/-! ### associativity is encoded by the right binding power each led passes on -/

/-- binary arithmetic, comparison, boolean, `&`, `~>` and `.` parse their right operand at
    their own binding power: equal precedence groups to the left -/
theorem binary_left_assoc (inp : Input) (pe : Nat → PState → Except PErr (PNode × PState))
    (t : Token) (lhs : PNode) (p : PState) (ht : t.type = .plus) :
    led inp pe t lhs p = (do let (rhs, p1) ← pe (bp .plus) p; .ok (.numop .add lhs rhs, p1)) := by
  simp [led, ht, numOpOfTok]

theorem dot_left_assoc (inp : Input) (pe : Nat → PState → Except PErr (PNode × PState))
    (t : Token) (lhs : PNode) (p : PState) (ht : t.type = .dot) :
    led inp pe t lhs p = (do let (rhs, p1) ← pe (bp .dot) p; .ok (.dot lhs rhs, p1)) := by
  simp [led, ht]

/-- `:=` parses its value one below its own power: it groups to the right -/
theorem assign_right_assoc (inp : Input) (pe : Nat → PState → Except PErr (PNode × PState))
    (t : Token) (name : String) (p : PState) (ht : t.type = .assign) :
    led inp pe t (.var name) p = (do let (v, p1) ← pe (bp .assign - 1) p; .ok (.assign name v, p1)) := by
  simp [led, ht]

/-- what every dispatch target passes to parseExpression as right binding power, regenerated from the
    source in a normalised form (`bp` = the binding power of the function's own token; a local that
    names the value is resolved and unexported helper methods are followed, so the fact does not
    depend on how the call is written) -/
theorem fact_led_right_binding_powers :
    Generated.parseExprArgs.lookup "parseNumericOperator" = some ["bp"] ∧
    Generated.parseExprArgs.lookup "parseComparisonOperator" = some ["bp"] ∧
    Generated.parseExprArgs.lookup "parseBooleanOperator" = some ["bp"] ∧
    Generated.parseExprArgs.lookup "parseStringConcatenation" = some ["bp"] ∧
    Generated.parseExprArgs.lookup "parseFunctionApplication" = some ["bp"] ∧
    Generated.parseExprArgs.lookup "parseDot" = some ["bp"] ∧
    Generated.parseExprArgs.lookup "parseNegation" = some ["bp"] ∧
    Generated.parseExprArgs.lookup "parseAssignment" = some ["bp-1"] ∧
    Generated.parseExprArgs.lookup "parseConditional" = some ["0", "0"] ∧
    Generated.parseExprArgs.lookup "parsePredicate" = some ["0"] ∧
    Generated.parseExprArgs.lookup "parseFunctionCall" = some ["0"] ∧
    Generated.parseExprArgs.lookup "parseSort" = some ["0"] ∧
    Generated.parseExprArgs.lookup "parseBlock" = some ["0"] ∧
    Generated.parseExprArgs.lookup "Parse" = some ["0"] := by decide

/-- the token types that have a nud and a led in jparse.go (sorted: the order of a map literal
    carries no meaning) -/
theorem fact_dispatch_tables :
    Generated.leds.map (·.1) =
      ["typeAnd", "typeApply", "typeAssign", "typeBraceOpen", "typeBracketOpen", "typeConcat", "typeCondition",
       "typeDiv", "typeDot", "typeEqual", "typeGreater", "typeGreaterEqual", "typeIn", "typeLess", "typeLessEqual",
       "typeMinus", "typeMod", "typeMult", "typeNotEqual", "typeOr", "typeParenOpen", "typePlus", "typeSort"] ∧
    Generated.nuds.map (·.1) =
      ["typeAnd", "typeBoolean", "typeBraceOpen", "typeBracketOpen", "typeDescendent", "typeIn", "typeMinus",
       "typeMult", "typeName", "typeNameEsc", "typeNull", "typeNumber", "typeOr", "typeParenOpen", "typePipe",
       "typeRegex", "typeString", "typeVariable"] := by decide

/-- exactly the tokens with a led have a non-zero binding power (validateBindingPowers) -/
theorem led_iff_bp :
    (allToks.filter fun t => bp t != 0).map Tok.goName =
      ["typeBracketOpen", "typeBraceOpen", "typeParenOpen", "typeDot", "typeCondition", "typePlus", "typeMinus",
       "typeMult", "typeDiv", "typeMod", "typeEqual", "typeNotEqual", "typeLess", "typeLessEqual", "typeGreater",
       "typeGreaterEqual", "typeApply", "typeSort", "typeConcat", "typeAssign", "typeAnd", "typeOr", "typeIn"] := by
  decide

/-! ### keywords in prefix position are names; quotes do not matter -/

theorem keywords_as_names (inp : Input) (pe : Nat → PState → Except PErr (PNode × PState))
    (t : Token) (p : PState) (h : t.type = .and_ ∨ t.type = .or_ ∨ t.type = .in_) :
    nud inp pe t p = .ok (.name (bytesToString inp t.lo t.hi), p) := by
  rcases h with h | h | h <;> simp [nud, h]

/-- the symbol and keyword tables of the model's lexer (the statement's operator set).  They are tied to
    lexer.go behaviourally: the harness sweeps every pair of punctuation characters, every ASCII character as
    a separator, words around the keywords and every letter as a regex flag through the real lexer and this
    one.  (Tables read from the source break whenever a table is rewritten — map literal ↔ switch ↔ helper —
    which says nothing about the property; see DESIGN.md 0.8.) -/
theorem symbol_tables :
    ((List.range 128).filter fun r => (symbol1 r).isSome) =
      [37, 38, 40, 41, 42, 43, 44, 45, 46, 47, 58, 59, 60, 61, 62, 63, 91, 93, 94, 123, 124, 125] ∧
    ((List.range 128).filterMap fun r => (symbol2 r).map fun p => (r, p.1, p.2.goName)) =
      [(33, 61, "typeNotEqual"), (42, 42, "typeDescendent"), (46, 46, "typeRange"), (58, 61, "typeAssign"),
       (60, 61, "typeLessEqual"), (62, 61, "typeGreaterEqual"), (126, 62, "typeApply")] ∧
    (["and", "or", "in", "true", "false", "null", "not", "And"].map fun w => (keyword w).map Tok.goName) =
      [some "typeAnd", some "typeOr", some "typeIn", some "typeBoolean", some "typeBoolean", some "typeNull", none, none] ∧
    ((List.range 128).filter isWhitespace) = [9, 10, 11, 13, 32] ∧ ((List.range 128).filter isRegexFlag) = [105, 109, 115] := by
  decide

end Jsonata.Props.C04
