/-
  Props/C07.lean — property C07: inputs are never modified; transform returns a modified copy.

  Values of the model are immutable, so "the caller's document is unchanged" cannot even be
  mis-stated there; what carries the property over to the source is (a) the regenerated list
  of mutator call sites (reflect Set/SetMapIndex, sort.*, rand.*), each of which must be on
  the allow-list below with the reason why its receiver is fresh, (b) the order of events in
  transformationCallable.Call (clone, then pattern, then ownership set, then writes), and
  (c) the correspondence, which deep-compares the input before and after every Eval.
-/
import JsonataModel.Lemmas.Assoc
import JsonataModel.Model.Interp
import JsonataModel.Lemmas.Monad
import JsonataModel.Generated.Facts

namespace Jsonata.Props.C07
open Jsonata NumSys

variable {N : Type} [NumSys N]

/-! ### the transform callable -/

/-- exactly one argument -/
theorem transform_arg_count (r : Rec N) (p u : Node N) (d : Option (Node N)) (env : Nat) (s : Store N)
    (a b : Option (Val N)) (rest : List (Option (Val N))) :
    callTransform r p u d env [] s = .error .argCount ∧
    callTransform r p u d env (a :: b :: rest) s = .error .argCount := by
  constructor <;> rfl

/-- an argument that is neither an object nor an array is an argument-type error; no
    argument value gives no value -/
theorem transform_arg_type (r : Rec N) (p u : Node N) (d : Option (Node N)) (env : Nat) (s : Store N)
    (x : N) (t : String) :
    callTransform r p u d env [some (.num x)] s = .error (.argType 1) ∧
    callTransform r p u d env [some (.str t)] s = .error (.argType 1) ∧
    callTransform r p u d env [none] s = .ok (none, s) := by
  refine ⟨?_, ?_, rfl⟩ <;> simp [callTransform, Val.isArr, Val.isObj]

mutual
/-- removing the location tags from a freshly tagged copy gives the copy back -/
theorem untag_tag (v : Val N) (path : List Nat) (hv : NoTag v) : untagVal (tagVal path v) = v := by
  cases v with
  | arr xs =>
    simp only [tagVal, untagVal]
    rw [untag_tag_list xs path 0 (by simpa [NoTag] using hv)]
  | obj kvs =>
    simp only [tagVal, untagVal, untagKVs, beq_self_eq_true, if_true]
    rw [untag_tag_kvs kvs path 0 (by simpa [NoTag] using hv)]
  | _ => rfl
theorem untag_tag_list (xs : List (Val N)) (path : List Nat) (i : Nat) (hv : NoTagL xs) :
    untagList (tagList path i xs) = xs := by
  cases xs with
  | nil => rfl
  | cons x xs =>
    simp only [tagList, untagList]
    rw [untag_tag x (i :: path) hv.1, untag_tag_list xs path (i + 1) hv.2]
theorem untag_tag_kvs (kvs : List (String × Val N)) (path : List Nat) (i : Nat) (hv : NoTagKV kvs) :
    untagKVs (tagKVs path i kvs) = kvs := by
  cases kvs with
  | nil => rfl
  | cons p ps =>
    obtain ⟨k, v⟩ := p
    have hk : (k == tagKey) = false := by simpa using hv.1
    simp only [tagKVs, untagKVs, hk, Bool.false_eq_true, if_false]
    rw [untag_tag v (i :: path) hv.2.1, untag_tag_kvs ps path (i + 1) hv.2.2]
end

/-- **A transform whose pattern selects nothing returns an equal copy of its argument.** -/
theorem transform_nothing_selected (r : Rec N) (p u : Node N) (d : Option (Node N)) (env : Nat)
    (v : Val N) (hv : v.isArr = true ∨ v.isObj = true) (hclean : NoTag (cloneVal v))
    (s s1 : Store N) (hsel : r.ev p (some (tagVal [] (cloneVal v))) env s = .ok (none, s1)) :
    callTransform r p u d env [some v] s = .ok (some (cloneVal v), s1) := by
  have hcont : (!(v.isArr || v.isObj)) = false := by
    rcases hv with h | h <;> simp [h]
  simp only [callTransform, hcont, Bool.false_eq_true, if_false, evalM_bind, evalM_pure, hsel,
    arrayify, List.filterMap_nil, callTransform.go, untag_tag _ _ hclean]

/-! ### the copy the transform works on -/

mutual
/-- a JSON value: no function anywhere inside -/
def Plain : Val N → Prop
  | .arr xs => PlainL xs
  | .obj kvs => PlainKV kvs
  | .null => True | .bool _ => True | .num _ => True | .str _ => True
  | _ => False
def PlainL : List (Val N) → Prop
  | [] => True
  | x :: xs => Plain x ∧ PlainL xs
def PlainKV : List (String × Val N) → Prop
  | [] => True
  | (_, v) :: kvs => Plain v ∧ PlainKV kvs
end

mutual
/-- **The transform's copy of a JSON value is that value** (member for member, element for element) -/
theorem cloneVal_plain : ∀ (v : Val N), Plain v → cloneVal v = v
  | .arr xs, h => by
    simp only [cloneVal]; rw [cloneL_plain xs (by simpa [Plain] using h)]
  | .obj kvs, h => by
    simp only [cloneVal]; rw [cloneKV_plain kvs (by simpa [Plain] using h)]
  | .null, _ => by simp [cloneVal]
  | .bool _, _ => by simp [cloneVal]
  | .num _, _ => by simp [cloneVal]
  | .str _, _ => by simp [cloneVal]
  | .builtin _, h => by simp [Plain] at h
  | .lambda .., h => by simp [Plain] at h
  | .partialFn .., h => by simp [Plain] at h
  | .transformFn .., h => by simp [Plain] at h
  | .chain .., h => by simp [Plain] at h
  | .regexFn .., h => by simp [Plain] at h
  | .matchNext _, h => by simp [Plain] at h
theorem cloneL_plain : ∀ (xs : List (Val N)), PlainL xs → cloneL xs = xs
  | [], _ => by simp [cloneL]
  | x :: rest, h => by
    have h' : Plain x ∧ PlainL rest := by simpa [PlainL] using h
    simp only [cloneL]; rw [cloneVal_plain x h'.1, cloneL_plain rest h'.2]
theorem cloneKV_plain : ∀ (kvs : List (String × Val N)), PlainKV kvs → cloneKV kvs = kvs
  | [], _ => by simp [cloneKV]
  | (k, v) :: rest, h => by
    have h' : Plain v ∧ PlainKV rest := by simpa [PlainKV] using h
    simp only [cloneKV]; rw [cloneVal_plain v h'.1, cloneKV_plain rest h'.2]
end

mutual
/-- whatever is cloned, the copy is a JSON value (functions have become "") -/
theorem cloneVal_isPlain : ∀ (v : Val N), Plain (cloneVal v)
  | .arr xs => by simp only [cloneVal, Plain]; exact cloneL_isPlain xs
  | .obj kvs => by simp only [cloneVal, Plain]; exact cloneKV_isPlain kvs
  | .null => by simp [cloneVal, Plain]
  | .bool _ => by simp [cloneVal, Plain]
  | .num _ => by simp [cloneVal, Plain]
  | .str _ => by simp [cloneVal, Plain]
  | .builtin _ => by simp [cloneVal, Plain]
  | .lambda .. => by simp [cloneVal, Plain]
  | .partialFn .. => by simp [cloneVal, Plain]
  | .transformFn .. => by simp [cloneVal, Plain]
  | .chain .. => by simp [cloneVal, Plain]
  | .regexFn .. => by simp [cloneVal, Plain]
  | .matchNext _ => by simp [cloneVal, Plain]
theorem cloneL_isPlain : ∀ (xs : List (Val N)), PlainL (cloneL xs)
  | [] => by simp [cloneL, PlainL]
  | x :: rest => by simp only [cloneL, PlainL]; exact ⟨cloneVal_isPlain x, cloneL_isPlain rest⟩
theorem cloneKV_isPlain : ∀ (kvs : List (String × Val N)), PlainKV (cloneKV kvs)
  | [] => by simp [cloneKV, PlainKV]
  | (k, v) :: rest => by simp only [cloneKV, PlainKV]; exact ⟨cloneVal_isPlain v, cloneKV_isPlain rest⟩
end

/-- cloning twice is cloning once -/
theorem cloneVal_idem (v : Val N) : cloneVal (cloneVal v) = cloneVal v :=
  cloneVal_plain _ (cloneVal_isPlain v)


/-! ### what an update and a delete do to one selected object -/

theorem objGet_append_single (kvs : List (String × Val N)) (k k' : String) (v : Val N) :
    objGet (kvs ++ [(k, v)]) k' =
      match objGet kvs k' with
      | some x => some x
      | none => if k = k' then some v else none := by
  induction kvs with
  | nil => by_cases h : k = k' <;> simp [objGet, List.find?, h]
  | cons p ps ih =>
    by_cases hp : p.1 = k'
    · simp [objGet, List.find?, hp]
    · have : (p.1 == k') = false := by simpa using hp
      simp only [objGet, List.cons_append, List.find?, this] at ih ⊢
      exact ih

/-- **a member set by the update is there afterwards, with the update's value** -/
theorem objSet_get_same (kvs : List (String × Val N)) (k : String) (v : Val N) :
    objGet (objSet kvs k v) k = some v := by
  unfold objSet
  split
  · rename_i h
    induction kvs with
    | nil => simp at h
    | cons p ps ih =>
      by_cases hp : p.1 = k
      · simp [objGet, hp]
      · have hb : (p.1 == k) = false := by simpa using hp
        have hps : ps.any (fun p => p.1 == k) = true := by simpa [List.any_cons, hb] using h
        simp only [objGet, List.map_cons, hb, Bool.false_eq_true, if_false, List.find?] at ih ⊢
        exact ih hps
  · rename_i h
    rw [objGet_append_single]
    have hnone : objGet kvs k = none := by
      unfold objGet
      have : kvs.find? (fun p => p.1 == k) = none := by
        rw [List.find?_eq_none]
        intro x hx hxk
        exact h (List.any_eq_true.mpr ⟨x, hx, hxk⟩)
      rw [this]
    simp [hnone]

theorem objGet_eq_find (kvs : List (String × Val N)) (k : String) :
    objGet kvs k = (kvs.find? (fun p => p.1 == k)).map (·.2) := by
  unfold objGet; cases kvs.find? (fun p => p.1 == k) <;> rfl

/-- **every other member is what it was** -/
theorem objSet_get_other (kvs : List (String × Val N)) (k k' : String) (v : Val N) (hne : k' ≠ k) :
    objGet (objSet kvs k v) k' = objGet kvs k' := by
  unfold objSet
  split
  · rw [objGet_eq_find, objGet_eq_find]
    exact find_map_set_other kvs k k' v hne
  · rw [objGet_append_single]
    have : ¬ k = k' := fun h => hne h.symm
    cases objGet kvs k' <;> simp [this]

/-- **a deleted name is gone** -/
theorem objDel_get_same (kvs : List (String × Val N)) (k : String) : objGet (objDel kvs k) k = none := by
  unfold objDel objGet
  have : (kvs.filter (fun p => p.1 != k)).find? (fun p => p.1 == k) = none := by
    rw [List.find?_eq_none]
    intro x hx hxk
    have := (List.mem_filter.mp hx).2
    simp at this hxk
    exact this hxk
  rw [this]

/-- **and deleting it leaves every other member as it was** -/
theorem objDel_get_other (kvs : List (String × Val N)) (k k' : String) (hne : k' ≠ k) :
    objGet (objDel kvs k) k' = objGet kvs k' := by
  unfold objDel
  rw [objGet_eq_find, objGet_eq_find, List.find?_filter]
  congr 2
  funext a
  by_cases h : a.1 = k'
  · simp [h, hne]
  · simp [h]

/-- deleting never adds a member and setting never removes one -/
theorem objDel_length_le (kvs : List (String × Val N)) (k : String) : (objDel kvs k).length ≤ kvs.length := by
  unfold objDel; exact List.length_filter_le _ _

theorem objSet_length_ge (kvs : List (String × Val N)) (k : String) (v : Val N) :
    kvs.length ≤ (objSet kvs k v).length := by
  unfold objSet; split <;> simp

/-! ### regenerated facts -/

/-- A mutator call (reflect `Set*`, an in-place `sort`, `big` setters, `rand`) cannot reach the caller's data
    when what it writes to is `local` — a value made in the calling function (make, new, MakeSlice, a call
    result) — wherever in the sources the call stands; `rand.*` only advances the generator.  Such sites are
    accepted by their kind, so that adding or moving one (as the repair F35 did with `sort.Slice` over the fresh
    list of member names) raises no alarm. -/
def localOnly (what : String) : Bool :=
  "local.".toList.isPrefixOf what.toList || "rand.".toList.isPrefixOf what.toList ||
  ["sort.Slice(local)", "sort.SliceStable(local)", "sort.Sort(local)", "sort.Stable(local)",
   "sort.Strings(local)", "sort.Ints(local)", "sort.Float64s(local)"].contains what

/-- the mutator call sites whose target is not local to the calling function, keyed by (file, receiver type of
    the enclosing method, receiver kind + method), with the reason the target is not the caller's data -/
def allowedMutators : List (String × String × String) := [
  ("eval.go", "", "alias:param:reflect.Value.Set"),  -- evalPath/evalObject: the variable is reassigned to a MakeSlice before the write
  ("callable.go", "transformationCallable", "param:reflect.Value.SetMapIndex")]  -- the object belongs to the clone (ownership check)

theorem fact_mutators_accounted :
    Generated.mutatorCalls.all (fun w => localOnly w.2.2 || allowedMutators.contains w) = true := by decide

/-- an in-place sort or a reflect write whose target is a parameter, a field or a global is not accepted by kind -/
example : localOnly "sort.Slice(param:[]interface{})" = false ∧ localOnly "param:reflect.Value.Set" = false ∧
    localOnly "sort.SliceStable(alias:param:reflect.Value)" = false := by decide

/-- maps are written only by methods of the transform callable -/
theorem fact_map_writes_only_in_transform :
    (Generated.mutatorCalls.filter (fun w => "SetMapIndex".toList.isSuffixOf w.2.2.toList)).map (·.2.1) =
      ["transformationCallable"] := by decide

def idx (e : String) (l : List String) : Nat := l.findIdx (· == e)

/-- the transform clones its argument (JSON round trip: Decode) before it evaluates the pattern,
    computes the set of objects owned by the clone (Pointer) before it writes (SetMapIndex) — on the
    trace inlined through package-local helpers, by library calls only, so that renaming or
    regrouping the helpers does not matter -/
theorem fact_transform_order :
    let ev := Generated.transformCallEvents
    ev.contains "call:Decode" = true ∧ ev.contains "call:eval" = true ∧
    ev.contains "call:Pointer" = true ∧ ev.contains "call:SetMapIndex" = true ∧
    idx "call:Decode" ev < idx "call:eval" ev ∧
    idx "call:eval" ev < idx "call:Pointer" ev ∧
    idx "call:Pointer" ev < idx "call:SetMapIndex" ev := by decide

end Jsonata.Props.C07
