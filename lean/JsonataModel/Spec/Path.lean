/-
  Spec/Path.lean — property C01 as definitions, written from the statement.

  A path is evaluated over a list of context items.  `sem step ctx` is the value
  of one step on one context item (whatever the step is).
-/
import JsonataModel.Model.Values
import JsonataModel.Model.Eval

namespace Jsonata.Spec
open Jsonata

variable {N : Type}

/-- array-valued step results are flattened one level; constructor steps are kept as units -/
def flatten1 (isCons : Bool) (rs : List (Val N)) : List (Val N) :=
  rs.flatMap fun v => match isCons, v with
    | false, .arr xs => xs
    | _, _ => [v]

/-- the values of a step, once per context item, in order, absent values dropped -/
def stepResults (sem : Option (Val N) → Option (Val N)) (items : List (Option (Val N))) : List (Val N) :=
  items.filterMap sem

/-- where the path starts: `$`, `$$` and variables (or a predicate on one) are anchored at
    the context item; otherwise an array context contributes its members -/
def startItems (anchored : Bool) (data : Option (Val N)) : List (Option (Val N)) :=
  match anchored, data with
  | false, some (.arr xs) => xs.map some
  | _, d => [d]

/-- result of the steps: `inl items` = a result sequence, `inr v` = a single array-valued
    result of the last step, returned as it is -/
def specSteps (sem : Node N → Option (Val N) → Option (Val N)) :
    Bool → List (Node N) → List (Option (Val N)) → Option (List (Val N) ⊕ Val N)
  | _, [], _ => none
  | first, step :: rest, items =>
    -- a leading array constructor is evaluated once, on all start items together
    let leadingCons := first && isConsNode step
    if leadingCons then
      match sem step (some (.arr (items.filterMap id))) with
      | none => none
      | some (.arr []) => none
      | some v =>
        match rest with
        | [] => some (.inr v)
        | _ => specSteps sem false rest (match v with | .arr xs => xs.map some | w => [some w])
    else
      let rs := stepResults (sem step) items
      match rest, rs with
      | [], [.arr []] => none
      | [], [.arr xs] => some (.inr (.arr xs))
      | [], _ =>
        match flatten1 (isConsNode step) rs with
        | [] => none
        | out => some (.inl out)
      | _, _ =>
        match flatten1 (isConsNode step) rs with
        | [] => none
        | out => specSteps sem false rest (out.map some)

/-- normalisation: no items is no value; one item is the item itself unless `[]` is present -/
def normalisePath (keep : Bool) : List (Val N) → Option (Val N)
  | [] => none
  | [x] => if keep then some (.arr [x]) else some x
  | xs => some (.arr xs)

def specPath (sem : Node N → Option (Val N) → Option (Val N)) (steps : List (Node N)) (keep : Bool)
    (data : Option (Val N)) : Option (Val N) :=
  match specSteps sem true steps (startItems (firstStepIsVar steps) data) with
  | none => none
  | some (.inl items) => normalisePath keep items
  | some (.inr v) => some v

end Jsonata.Spec
