/-
  Spec/Ops.lean — property C03 as definitions: the operator table over operand kinds.
  Written from the property statement, not from eval.go.
-/
import JsonataModel.Model.Values
import JsonataModel.Model.Basic

namespace Jsonata.Spec
open Jsonata NumSys

variable {N : Type}

/-- the operand kinds the property quantifies over -/
inductive Kind | num | str | bool | null | arr | obj | fn | missing
  deriving DecidableEq, Repr

def kindOf : Option (Val N) → Kind
  | none => .missing
  | some (.num _) => .num
  | some (.str _) => .str
  | some (.bool _) => .bool
  | some .null => .null
  | some (.arr _) => .arr
  | some (.obj _) => .obj
  | some _ => .fn

/-- what an operator does for a pair of operand kinds -/
inductive Class
  | compute            -- the defined result for these operand values
  | constFalse         -- `false`
  | noValue            -- 'no value'
  | err (k : EvalErrKind)
  deriving DecidableEq, Repr

/-- arithmetic: numbers compute; a missing operand gives no value; anything else is an error -/
def arithClass : Kind → Kind → Class
  | .num, .num => .compute
  | .num, .missing | .missing, .num | .missing, .missing => .noValue
  | .num, _ | .missing, _ => .err .nonNumberRHS
  | _, _ => .err .nonNumberLHS

/-- ordering comparisons `< <= > >=` -/
def orderClass : Kind → Kind → Class
  | .num, .num | .str, .str => .compute
  | .num, .str | .str, .num => .err .typeMismatch
  | .num, .missing | .str, .missing | .missing, .num | .missing, .str | .missing, .missing => .constFalse
  | .num, _ | .str, _ | .missing, _ => .err .nonComparableRHS
  | _, _ => .err .nonComparableLHS

/-- `= != in`: every kind is admissible; a missing operand gives false -/
def equalityClass : Kind → Kind → Class
  | .missing, _ | _, .missing => .constFalse
  | _, _ => .compute

section
variable [NumSys N]

/-- the IEEE result of an arithmetic operator, or the error for inf/NaN -/
def arithResult (op : NumOp) (a b : N) : Except Err (Option (Val N)) :=
  let x := match op with
    | .add => add a b | .sub => sub a b | .mul => mul a b | .div => div a b | .mod => mod a b
  if isInf x then .error (.eval .numberInf)
  else if isNaN x then .error (.eval .numberNaN)
  else .ok (some (.num x))

/-- membership by `=` (a non-array right operand counts as a one-member array) -/
def memberOf (l r : Val N) : Bool :=
  match r with
  | .arr xs => xs.any (valEq l)
  | v => valEq l v

end
end Jsonata.Spec
