/-
  Spec/Filter.lean — property C02 as definitions, written from the statement:
  a predicate result selects by position when it is a number or an array of
  numbers, and by truth value otherwise.
-/
import JsonataModel.Model.Values

namespace Jsonata.Spec
open Jsonata NumSys

variable {N : Type} [NumSys N]

/-- A (floored) position in a list of `len` items: negative positions count back
    from the end, positions outside the list select nothing. -/
def position (idx : Int) (len : Nat) : Option Nat :=
  let i := if idx < 0 then idx + len else idx
  if 0 ≤ i ∧ i < len then some i.toNat else none

def numbersOnly : List (Val N) → Option (List N)
  | [] => some []
  | .num x :: xs => (numbersOnly xs).map (x :: ·)
  | _ => none

/-- how many times the item at position `i` (of `len`) is kept for predicate result `res` -/
def keepCount (res : Option (Val N)) (i len : Nat) : Nat :=
  match res with
  | some (.num x) => if position (toInt (floor x)) len = some i then 1 else 0
  | some (.arr xs) =>
    match numbersOnly xs with
    | some ns => (ns.filter fun x => position (toInt (floor x)) len = some i).length
    | none => if truthy (.arr xs) then 1 else 0
  | r => if truthyO r then 1 else 0

/-- the filtered list: items in their original order, each as often as it is selected -/
def filterFrom (p : Val N → Option (Val N)) (len : Nat) : Nat → List (Val N) → List (Val N)
  | _, [] => []
  | i, x :: xs => List.replicate (keepCount (p x) i len) x ++ filterFrom p len (i + 1) xs

def specFilter (p : Val N → Option (Val N)) (items : List (Val N)) : List (Val N) :=
  filterFrom p items.length 0 items

/-- the normalisation shared with paths: nothing kept is no value, one item is the item -/
def normalise : List (Val N) → Option (Val N)
  | [] => none
  | [x] => some x
  | xs => some (.arr xs)

end Jsonata.Spec
