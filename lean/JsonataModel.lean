import JsonataModel.Model.Basic
import JsonataModel.Model.Interp
import JsonataModel.Model.Proto
import JsonataModel.Props.C03
import JsonataModel.Props.C01
import JsonataModel.Props.C02
