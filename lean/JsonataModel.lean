import JsonataModel.Model.Basic
