/-
  Driver/Main.lean — line-protocol driver: one request per line on stdin, one
  response per line on stdout.  Imports Model only (core Lean), so it links.
-/
import JsonataModel.Model.Interp
import JsonataModel.Model.Proto
import JsonataModel.Model.Parser
import JsonataModel.Model.Ext

open Jsonata Jsonata.Proto

def fuelDefault : Nat := 400

/-! ### extensions -/

open Jsonata.Ext in
def goTyOf : String → Option GoTy
  | "f64" => some .f64 | "int" => some .int | "u8" => some .u8 | "str" => some .str | "bool" => some .bool
  | "bytes" => some .bytes | "iface" => some .iface | "value" => some .value | "slice" => some .slice
  | "map" => some .map | "callable" => some .callable
  | "opt:f64" => some (.opt .f64) | "opt:int" => some (.opt .int) | "opt:str" => some (.opt .str)
  | "opt:bool" => some (.opt .bool) | "opt:iface" => some (.opt .iface) | "opt:value" => some (.opt .value)
  | "opt:callable" => some (.opt .callable) | "opt:opt:f64" => some (.opt (.opt .f64))
  | _ => none

open Jsonata.Ext in
partial def recvToText : Recv Float → String
  | .f64 x => "f64:" ++ valToText (.num x)
  | .int n => "int:" ++ toString n
  | .u8 n => "u8:" ++ toString n
  | .str s => "str:s" ++ stringToHex s
  | .bool b => "bool:" ++ (if b then "t" else "f")
  | .bytes s => "bytes:s" ++ stringToHex s
  | .any v => "any:" ++ valToText v
  | .nilAny => "nil"
  | .optUnset => "unset"
  | .optSet r => "set(" ++ recvToText r ++ ")"

open Jsonata.Ext in
def handleExt (paramsS variadicS chS uhS ctxS argsS : String) : String :=
  let params? := if paramsS.isEmpty then some [] else (paramsS.splitOn ",").mapM goTyOf
  let ch? : Option CHk := match chS with | "none" => some .none_ | "noargs" => some .whenNoArgs | "firststr" => some .whenFirstIsString | _ => none
  let uh? : Option UHk := match uhS with | "none" => some .none_ | "any" => some .anyUndefined | "first" => some .firstUndefined | _ => none
  match params?, ch?, uh?, parseSexp ctxS, parseSexp argsS with
  | some params, some ch, some uh, some cs, some (.list as) =>
    match optValOfSexp cs, as.mapM optValOfSexp with
    | some ctx, some argv =>
      let spec : Spec := { params := params, variadic := variadicS == "t", ch := ch, uh := uh }
      if !validParams params spec.variadic then "invalid"
      else match call spec ctx argv with
        | .called rs => "call" ++ String.join (rs.map fun r => " " ++ recvToText r)
        | .undef => "undef"
        | .argCount => "argcount"
        | .argType i => "argtype " ++ toString i
    | _, _ => "bad values"
  | _, _, _, _, _ => "bad ext request"

open Jsonata.Ext in
def handleRegistry (opsS : String) : String :=
  let step1 (acc : World × List String) (o : String) : World × List String :=
    match o.splitOn " " with
    | ["G", k, v] => (step acc.1 (.regGlobal k v.toNat!), acc.2)
    | ["C"] => (step acc.1 .compile, acc.2)
    | ["L", e, k, v] => (step acc.1 (.regLocal e.toNat! k v.toNat!), acc.2)
    | ["Q", e, k] => (acc.1, acc.2 ++ [match lookup acc.1 e.toNat! k with | some v => toString v | none => "-"])
    | _ => (acc.1, acc.2 ++ ["?"])
  let r := (opsS.splitOn ";").foldl step1 (({} : World), [])
  " ".intercalate r.2

def handle (line : String) : String :=
  match line.splitOn "\t" with
  | ["eval", nodeS, inputS] =>
    match parseSexp nodeS, parseSexp inputS with
    | some ns, some is =>
      match nodeOfSexp ns, optValOfSexp is with
      | some node, some input => outcomeToText (evalTop fuelDefault node input)
      | none, _ => "bad node"
      | _, none => "bad input"
    | _, _ => "bad sexp"
  | ["parse", hexS] =>
    match hexToBytes hexS.toList with
    | none => "bad hex"
    | some bs =>
      match Jsonata.Parse.parse bs.toArray with
      | .ok node => "ok " ++ nodeToText node
      | .error e => "err " ++ e.type ++ " " ++ toString e.position
  | ["parse"] =>
    match Jsonata.Parse.parse #[] with
    | .ok node => "ok " ++ nodeToText node
    | .error e => "err " ++ e.type ++ " " ++ toString e.position
  | ["ext", paramsS, variadicS, chS, uhS, ctxS, argsS] => handleExt paramsS variadicS chS uhS ctxS argsS
  | ["registry", opsS] => handleRegistry opsS
  | ["validname", hexS] =>
    match hexToBytes hexS.toList with
    | some bs => match String.fromUTF8? (ByteArray.mk bs.toArray) with
      | some str => if Jsonata.Ext.validName str then "t" else "f"
      | none => "bad utf8"
    | none => "bad hex"
  | ["ping"] => "pong"
  | _ => "bad-op"

partial def loop (hin : IO.FS.Stream) (hout : IO.FS.Stream) : IO Unit := do
  let line ← hin.getLine
  if line.isEmpty then return ()
  let l := if line.endsWith "\n" then (line.dropEnd 1).toString else line
  hout.putStrLn (handle l)
  hout.flush
  loop hin hout

def main : IO Unit := do
  loop (← IO.getStdin) (← IO.getStdout)
