/-
  Driver/Main.lean — line-protocol driver: one request per line on stdin, one
  response per line on stdout.  Imports Model only (core Lean), so it links.
-/
import JsonataModel.Model.Interp
import JsonataModel.Model.Proto
import JsonataModel.Model.Parser

open Jsonata Jsonata.Proto

def fuelDefault : Nat := 400

def handle (line : String) : String :=
  match line.splitOn "\t" with
  | ["eval", nodeS, inputS] =>
    match parseSexp nodeS, parseSexp inputS with
    | some ns, some is =>
      match nodeOfSexp ns, optValOfSexp is with
      | some node, some input => outcomeToText (evalTop fuelDefault node input)
      | none, _ => "bad node"
      | _, none => "bad input"
    | _, _ => "bad sexp"
  | ["parse", hexS] =>
    match hexToBytes hexS.toList with
    | none => "bad hex"
    | some bs =>
      match Jsonata.Parse.parse bs.toArray with
      | .ok node => "ok " ++ nodeToText node
      | .error e => "err " ++ e.type ++ " " ++ toString e.position
  | ["parse"] =>
    match Jsonata.Parse.parse #[] with
    | .ok node => "ok " ++ nodeToText node
    | .error e => "err " ++ e.type ++ " " ++ toString e.position
  | ["ping"] => "pong"
  | _ => "bad-op"

partial def loop (hin : IO.FS.Stream) (hout : IO.FS.Stream) : IO Unit := do
  let line ← hin.getLine
  if line.isEmpty then return ()
  let l := if line.endsWith "\n" then (line.dropEnd 1).toString else line
  hout.putStrLn (handle l)
  hout.flush
  loop hin hout

def main : IO Unit := do
  loop (← IO.getStdin) (← IO.getStdout)
